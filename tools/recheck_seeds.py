#!/usr/bin/env python3
"""recheck_seeds.py [ID ...] — re-run the property's quick check on every kept seeded change (patch only, scratch copy of /repo)
and record the *current* verdict in seeded/<id>/meta.json under our_check, keeping the verdict at first contact under
first_contact (so the history 'missed at first, caught after rule X was added' stays visible)."""
import json, os, sys, glob, shutil
HERE = os.path.dirname(os.path.abspath(__file__))
sys.path.insert(0, HERE)
sys.path.insert(0, os.path.dirname(HERE))
import mutest

def main():
    ids = sys.argv[1:]
    for mf in sorted(glob.glob(os.path.join(mutest.VERIF, "seeded", "*", "meta.json"))):
        d = os.path.dirname(mf)
        sid = os.path.basename(d)
        if ids and sid not in ids:
            continue
        m = json.load(open(mf))
        prop = m["breaks_property"]
        dst = mutest.make_scratch(os.path.join(d, "patch.diff"), tag="rs_%s" % sid)
        try:
            rc, out = mutest.run_check(prop, dst)
        finally:
            mutest.drop_facts(dst)
            shutil.rmtree(dst, ignore_errors=True)
            shutil.rmtree(dst.rstrip("/") + ".evidence", ignore_errors=True)
        viol = [l.strip()[:300] for l in out.splitlines() if l.strip().startswith("violation:")][:8]
        det = rc == 1 and ("VIOLATION property=%s" % prop) in out
        if "first_contact" not in m:
            m["first_contact"] = {"detected": (m.get("our_check") or {}).get("detected"), "violations": (m.get("our_check") or {}).get("violations")}
        oc = dict(m.get("our_check") or {})
        oc.update({"detected": det, "exit": rc, "violations": viol})
        m["our_check"] = oc
        json.dump(m, open(mf, "w"), indent=1)
        print("%-8s %s first=%s now=%s %s" % (sid, prop, m["first_contact"]["detected"], det, (viol[0][11:120] if viol else "")))

main()
