#!/usr/bin/env python3
"""benign_matrix.py [PROP ...] — every claimed property's quick check on every behaviour-preserving patch under /tmp/benignout and
mutants/*/benign: prints the alarms (non-zero exits).  Scratch trees / facts shared with regress.py."""
import glob, json, os, sys, subprocess
from concurrent.futures import ThreadPoolExecutor
sys.path.insert(0, os.path.dirname(os.path.abspath(__file__)))
import regress as R  # noqa
V = R.V

def one(job):
    prop, patch = job
    r = R.run(prop, patch, "silent")
    return prop, patch, r[2], r[3]

def main():
    props = [a.upper() for a in sys.argv[1:] if not a.startswith("-")] or [c["property_id"] for c in json.load(open(os.path.join(V, "MANIFEST.json")))["checks"]]
    patches = sorted(glob.glob(os.path.join(V, "mutants", "*", "benign", "*.patch"))) + sorted(glob.glob(os.path.join(V, "benign", "*", "patch.diff")))
    # make sure each tree's facts exist once before fanning out (generation is serialised by a lock anyway)
    jobs = [(p, x) for x in patches for p in props]
    bad = 0
    with ThreadPoolExecutor(max_workers=int(os.environ.get("RG_JOBS", "8"))) as ex:
        for prop, patch, verdict, info in ex.map(one, jobs):
            if verdict != "ok":
                bad += 1
                print("ALARM %s on %s: %s\n        %s" % (prop, patch.replace("/tmp/benignout/", "").replace(V + "/", ""), verdict, info))
    print("MATRIX: %d patches x %d properties, %d alarms" % (len(patches), len(props), bad))

if __name__ == "__main__":
    main()
