#!/usr/bin/env python3
"""benign_run.py <patch> [PROP ...] — apply a behaviour-preserving patch to a scratch copy of /repo and run the checks on it
(all claimed properties by default).  Prints every check that does not exit 0 with its violation / anchor lines."""
import json, os, shutil, subprocess, sys
HERE = os.path.dirname(os.path.abspath(__file__))
sys.path.insert(0, HERE)
import mutest

def main():
    patch = sys.argv[1]
    props = sys.argv[2:] or [c["property_id"] for c in json.load(open(os.path.join(mutest.VERIF, "MANIFEST.json")))["checks"]]
    dst = mutest.make_scratch(patch, tag="bn_%d" % os.getpid())
    bad = 0
    try:
        for p in props:
            rc, out = mutest.run_check(p, dst)
            if rc != 0:
                bad += 1
                lines = [l.strip()[:330] for l in out.splitlines() if l.strip().startswith(("violation:", "ANCHOR", "CONTROL", "FACTGEN", "Traceback", "  File", "error"))][:6]
                if not lines:
                    lines = out.strip().splitlines()[-4:]
                print("ALARM %s rc=%d on %s" % (p, rc, os.path.basename(os.path.dirname(patch)) or patch))
                for l in lines:
                    print("     ", l)
    finally:
        mutest.drop_facts(dst)
        shutil.rmtree(dst, ignore_errors=True)
        shutil.rmtree(dst.rstrip("/") + ".evidence", ignore_errors=True)
    print("BENIGN %s: %s" % (patch, "silent" if not bad else "%d alarms" % bad))
    return 1 if bad else 0

sys.exit(main())
