#!/usr/bin/env python3
"""regress.py PROP [--all-benign] — development harness: run PROP's quick check on HEAD, on every mutant (must detect), every benign
patch (must be silent), every seeded change of PROP (must detect).  Scratch trees and their facts are kept under
.work/rg so that repeated runs only re-run the Python rules (~1.5 s per tree).  Not a registered command."""
import glob, json, os, shutil, subprocess, sys, hashlib
from concurrent.futures import ThreadPoolExecutor
V = os.path.dirname(os.path.dirname(os.path.abspath(__file__)))
RG = os.environ.get("VERIF_RG", "/tmp/verif-rg")


def tree_for(patch):
    h = hashlib.sha256(open(patch, "rb").read()).hexdigest()[:12]
    head = subprocess.check_output(["git", "-C", "/repo", "rev-parse", "--short", "HEAD"], text=True).strip()
    dst = os.path.join(RG, "%s_%s" % (head, h))
    if os.path.isdir(dst):
        return dst
    os.makedirs(RG, exist_ok=True)
    tmp = dst + ".tmp%d_%d" % (os.getpid(), __import__("threading").get_ident())
    shutil.rmtree(tmp, ignore_errors=True)
    shutil.copytree("/repo", tmp, ignore=shutil.ignore_patterns("target", ".git"))
    subprocess.run(["git", "init", "-q"], cwd=tmp, check=True)
    r = subprocess.run(["git", "apply", "--whitespace=nowarn", os.path.abspath(patch)], cwd=tmp, capture_output=True, text=True)
    if r.returncode != 0:
        shutil.rmtree(tmp, ignore_errors=True)
        return None
    try:
        os.rename(tmp, dst)
    except OSError:
        shutil.rmtree(tmp, ignore_errors=True)   # another worker made the same tree meanwhile
    return dst


def run(prop, patch, expect):
    dst = tree_for(patch)
    if dst is None:
        return (patch, expect, "NOAPPLY", "")
    env = dict(os.environ, VERIF_REPO=dst, VERIF_EVIDENCE_DIR=dst + ".evidence", VERIF_FACTS_KEEP="600")
    r = subprocess.run([os.path.join(V, "vcheck"), prop, "quick"], cwd=V, env=env, capture_output=True, text=True)
    out = r.stdout + r.stderr
    lines = [l.strip()[:260] for l in out.splitlines() if l.strip().startswith(("violation:", "ANCHOR", "CONTROL", "FACTGEN", "Traceback", "  File ", "KeyError", "TypeError", "AttributeError", "IndexError", "vlib.", "ValueError"))]
    if r.returncode not in (0, 1) and not lines:
        lines = out.strip().splitlines()[-3:]
    ok = (r.returncode == 1) if expect == "detect" else (r.returncode == 0)
    return (patch, expect, "ok" if ok else "FAIL rc=%d" % r.returncode, "\n        ".join(lines[:4]) if not ok else (lines[0][:150] if lines else ""))


def main():
    prop = sys.argv[1].upper()
    p = prop.lower()
    jobs = []
    for x in sorted(glob.glob(os.path.join(V, "mutants", p, "*.patch"))):
        jobs.append((x, "detect"))
    for x in sorted(glob.glob(os.path.join(V, "mutants", p, "benign", "*.patch"))):
        jobs.append((x, "silent"))
    for d in sorted(glob.glob(os.path.join(V, "seeded", "%s_*/" % prop))):
        if os.path.exists(d + "patch.diff"):
            jobs.append((d + "patch.diff", "detect"))
    if "--all-benign" in sys.argv:
        for d in sorted(glob.glob(os.path.join(V, "benign", "*/"))):
            jobs.append((d + "patch.diff", "silent"))
    else:
        for d in sorted(glob.glob(os.path.join(V, "benign", "%s_*/" % prop))):
            jobs.append((d + "patch.diff", "silent"))
    seen, uniq = set(), []
    for j in jobs:
        k = hashlib.sha256(open(j[0], "rb").read()).hexdigest()
        if k not in seen:
            seen.add(k)
            uniq.append(j)
    r0 = subprocess.run([os.path.join(V, "vcheck"), prop, "quick"], cwd=V, capture_output=True, text=True)
    print("HEAD rc=%d %s" % (r0.returncode, r0.stdout.strip().splitlines()[-1] if r0.stdout.strip() else r0.stderr[-300:]))
    with ThreadPoolExecutor(max_workers=int(os.environ.get("RG_JOBS", "6"))) as ex:
        res = list(ex.map(lambda j: run(prop, j[0], j[1]), uniq))
    bad = 0
    for (patch, expect, verdict, info) in res:
        name = patch.replace(V + "/", "").replace("/tmp/", "")
        if verdict != "ok":
            bad += 1
        print("%-7s %-8s %s%s" % (verdict, expect, name, ("\n        " + info) if verdict != "ok" and info else ""))
    print("REGRESS %s: %d jobs, %d bad" % (prop, len(res), bad))

if __name__ == "__main__":
    main()
