#!/usr/bin/env python3
"""Regenerate seeded/README.md from the meta.json of every kept seeded change (+ first-contact records)."""
import glob, json, os
V = os.path.dirname(os.path.dirname(os.path.abspath(__file__)))
fc = {}
for f in glob.glob(os.path.join(V, "seeded", "first_contact_round*.json")):
    j = json.load(open(f))
    for s in j.get("detected", []):
        fc[s] = ("detected", "")
    for s, why in j.get("missed", {}).items():
        fc[s] = ("missed", why)
    for s, why in j.get("not_measured", {}).items():
        fc[s] = ("not measured", why)
rows = []
for mf in sorted(glob.glob(os.path.join(V, "seeded", "*", "meta.json"))):
    m = json.load(open(mf))
    sid = os.path.basename(os.path.dirname(mf))
    oc = m.get("our_check") or {}
    first = fc.get(sid, ("detected" if (m.get("first_contact") or oc).get("detected") else "missed", ""))
    viol = (oc.get("violations") or [""])[0]
    rule = viol.split("violation: ")[-1].split(" ")[0] if viol else ""
    rows.append((sid, m["breaks_property"], m["summary"].replace("\n", " ")[:230], m.get("needs", "").replace("\n", " ")[:200], first[0], first[1],
                 "yes" if oc.get("detected") else "NO", rule, ", ".join(sorted((oc.get("other_checks_firing") or {}).keys()))))
out = ["# Independently produced breaking changes (`seeded/`)", "",
       "Each directory holds `patch.diff` (the change), `demo.diff` (a demonstration that fails with the change and passes without it) and `meta.json`.",
       "Produced by fresh sub-agents that saw only the property text and a scratch worktree of `/repo`; kept only after `tools/verify_seed.py` confirmed:",
       "the patch applies to HEAD, the existing suite passes with it, the demonstration fails with it and passes without it.",
       "`first contact` is the verdict of the property's own quick check when the change was first run against it; `now` is the verdict today",
       "(`tools/recheck_seeds.py`; the thorough tier re-runs every kept seed and fails if one recorded as detected is no longer detected).", "",
       "| id | property | change | needs | first contact | what was strengthened | now | reporting rule | other checks firing |", "|---|---|---|---|---|---|---|---|---|"]
for r in rows:
    out.append("| " + " | ".join(x.replace("|", "\\|") for x in r) + " |")
n = len(rows)
d1 = sum(1 for r in rows if r[4] == "detected")
d2 = sum(1 for r in rows if r[6] == "yes")
out += ["", "%d changes kept; %d detected at first contact; %d detected now." % (n, d1, d2), ""]
open(os.path.join(V, "seeded", "README.md"), "w").write("\n".join(out))
print("seeded/README.md: %d rows, first contact %d, now %d" % (n, d1, d2))
