"""helper: mk(prop, name, file, old, new) writes mutants/<prop>/<name>.patch from a textual replacement in /repo (restored afterwards)."""
import os, subprocess
def mk(prop, name, file, old, new, count=1):
    p = os.path.join('/repo', file)
    s = open(p).read()
    assert s.count(old) >= 1, "%s: anchor text not found in %s" % (name, file)
    open(p, 'w').write(s.replace(old, new, count))
    d = subprocess.check_output(['git', '-C', '/repo', 'diff'], text=True)
    os.makedirs('/verif/mutants/%s' % prop, exist_ok=True)
    open('/verif/mutants/%s/%s.patch' % (prop, name), 'w').write(d)
    subprocess.check_call(['git', '-C', '/repo', 'checkout', '--', '.'])
