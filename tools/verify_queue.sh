#!/bin/sh
# verify every delivered seed under /tmp/seedout that has no verify result yet, one at a time
exec 9>/tmp/seedout/.lock
flock 9
for d in /tmp/seedout/*/; do
  id=$(basename "$d")
  [ -f "$d/meta.json" ] || continue
  [ -f "/tmp/seedout/$id.verify.json" ] && continue
  python3 /verif/tools/verify_seed.py "$d" > "/tmp/seedout/$id.verify.json" 2>&1
done
echo queue-done
