#!/usr/bin/env python3
"""Regenerate MANIFEST.json from the table below (single source of truth)."""
import json
import os

VERIF = os.path.dirname(os.path.dirname(os.path.abspath(__file__)))

CHECKS = {
    "C04": {
        "technique": "static analysis: success-edge dominance over borrowck-time MIR (run's step chain, client methods); option-aware maybe-initialised dataflow for 'no reply future of a sent load un-awaited at Ok' (any loop / container idiom); introduction sites of Client<_,Open>; abstract interpretation of handle_task; reply classification shared with C08",
        "text": "Exact decision of the structural statement: on every CFG path of Updater::run, commit_config (its only call site in the workspace) is reachable only through the success edges of open_db, both fetches, try_join!, and load_config; load_config returns Ok only after the loop over every pushed reply future is exhausted with each reply `?`-checked; every client method returns success only through both awaits' success edges; Client<_,Open> is constructed only in open_db. This covers all fault positions because it quantifies over CFG paths rather than sampled faults. Not decided: server behaviour, try_join!/`?` semantics (trusted).",
        "note": "Trusts rustc's MIR construction (nightly 1.97) as a faithful rendering of the source semantics, tokio::try_join! documentation, and C08 for what a positive acknowledgement is.",
        "design_ref": "DESIGN.md §3 C04",
    },
}

CHECKS.update({
    "C05": {
        "technique": "static analysis: path exploration of Session::recv per slot-state case and of OutstandingRequest::take with stores through &mut modelled (vlib/absint.py); value-origin slices and dominance on MIR for id freshness (counter advanced before send); MutexGuard live ranges (lock order, guards across awaits, slot check under the receive lock)",
        "text": "Decides the structural clauses that hold on every schedule: ids given to Request::new come from MessageId::increment on the session's counter (only writer: Session::rpc, &mut self, Session not Clone); the delivered reply comes only from the caller's own slot and a received reply is parked only under its own id, unknown ids take an error edge; the slot state machine has no double delivery / overwrite; the requests guard is held from lookup through send to insert(Pending) and insert follows send's success edge; the lock-order graph is acyclic and the map is not locked across the transport read; Reply::try_from cross-checks the id. NOT decided (not applicable to static analysis): wake-up order, Mutex fairness, progress ('no caller waits forever') under all interleavings. Second round: the counter is advanced before the request can reach the wire (no write to it can follow the send); the caller looks into its own slot while already holding the receive lock and keeps that lock until it reads.",
        "note": "Trusts tokio::sync::Mutex mutual exclusion and HashMap semantics; usize overflow of the counter out of scope. Scheduling clauses of C05 are outside this technique.",
        "design_ref": "DESIGN.md §3 C05",
    },
    "C06": {
        "technique": "static analysis: symbolic evaluation of the search-window start and split position from MIR def chains (through a find+split helper if there is one), must-pass-through reachability (re-search before wait), place-root analysis of buffers, dominance for delimiter placement",
        "text": "Decides, for every path of the three framing loops, the dataflow facts that make framing independent of segmentation: the search window start is 0 or buf.len() minus at least MARKER.len()-1 at every definition; split position = start + index + MARKER.len(); a find precedes every wait for input and the SSH pump re-searches until no marker is left; buffers persist across calls; to_xml appends the 6-byte marker exactly once after the document. Not decided: concrete chunkings, TLS/SSH record layers (trusted).",
        "note": "Trusts memchr Finder::find (first occurrence), BytesMut::split_to semantics, in-order delivery by rustls/russh.",
        "design_ref": "DESIGN.md §3 C06",
    },
    "C07": {
        "technique": "static analysis: exit-edge reachability on MIR (zero-length read / closed-source outcomes must not reach the loop again), success-edge dominance for error propagation, abstract interpretation of the SSH receiver's queue-closed outcome",
        "text": "Decides the 'never spins / every read loop leaves on end-of-stream' clauses on all CFG paths: the byte count of every read_buf in a receive loop is compared with zero and the zero edge cannot reach the read again and ends in Err; in the SSH pump, recv()==None, wait()==None and ChannelMsg::Eof edges leave the loop; Session::recv/ServerMsg::recv/ClientMsg::send propagate transport errors; closed queue => Error::DequeueMessage. NOT decided: 'within bounded time' (timing), half-open connections, russh/rustls internals.",
        "note": "Trusts read_buf returning Ok(0) at EOF, russh Channel::wait()==None after close, mpsc closure semantics.",
        "design_ref": "DESIGN.md §3 C07",
    },
    "C08": {
        "technique": "static analysis: control dependence (edge dominance on predicate results, helper predicates verified by abstract interpretation) of success-variant constructions in the four reply readers, THIR match tables for IntoResult, origin slices and who-may-write for the error list",
        "text": "Exact decision of the structural statement over all paths of the four reply readers: every construction of the success variant is dominated by the no-error edge of a predicate on the accumulated errors (is_empty, or no collected error of severity error), every rpc-error acceptance sharing a loop with a success construction is dominated by 'no result yet', IntoResult maps Errs to Err only, the reported Errors is the list the reply's rpc-errors were appended to (only Errors::push mutates it). Not decided: fidelity of the rpc-error leaf parser.",
        "note": "Trusts quick-xml document-order event delivery and Vec::push ordering.",
        "design_ref": "DESIGN.md §3 C08",
    },
    "C18": {
        "technique": "static analysis: backward liveness ∩ maybe-initialised dataflow at every coroutine Yield (values of received-data types held across a suspension point), denylist of cancel-unsafe awaited futures, guard-escape scan, removal sites of the request table and Drop impls among the reply future's locals",
        "text": "Decides cancellation safety as a liveness question at each suspension point of Session::recv, ServerMsg::recv and the three transport recv coroutines: no PartialReply/Reply/Bytes/BytesMut/String taken off the transport is live across an await, except the listed known finding (Session::recv holds the just-read reply across requests.lock().await; reproduced, see known_findings.json). Not decided: which suspension points a concrete schedule reaches; executor behaviour. Second round: no entry of the request table is removed except after its reply was delivered, and dropping a reply future runs no code of this crate (no local of Session::recv / rpc has a type with a Drop impl written here).",
        "note": "Trusts tokio's documented cancel-safety of Mutex::lock, mpsc::Receiver::recv, read_buf; a coroutine drop drops exactly its initialised locals.",
        "design_ref": "DESIGN.md §3 C18",
    },
})

CHECKS.update({
    "C03": {
        "technique": "static analysis: abstract interpretation of the function's THIR over the rule's abstract input cases (vlib/absint.py: local fns/closures inlined, Option/Result combinators and `?` interpreted, undecided branches fork the path) — compare per (evaluated x installed) case, Candidate::evaluate per evaluator outcome, Policies::evaluate (iterator chain or loop form), the as-set resolver per initial-query outcome, one iteration of the annotation scan; pattern-context analysis of sink_error",
        "text": "Decides the structural necessary conditions: compare yields no Update/Delete for ranges=None and Delete only for (absent, present) — exhaustive over the 6 abstract cases; ranges is .ok() of the evaluator result with no defaulting combinator and candidates are mapped one-to-one; sink_error can abort and tolerates only route-query KeyNotFound / unparsable single items; the as-set resolver propagates an unknown as-set. One known finding (malformed annotation => Delete, TODO in source) is listed. Not decided: which errors the IRR returns, irrc internals.",
        "note": "Trusts rpsl-0.1.1 collect_result(s)/sink_error contract and irrc-0.1.0 error classification (versions pinned by Cargo.lock).",
        "design_ref": "DESIGN.md §3 C03",
    },
    "C09": {
        "technique": "static analysis: abstract interpretation of the function's THIR over the rule's abstract input cases (vlib/absint.py: local fns/closures inlined, Option/Result combinators and `?` interpreted, undecided branches fork the path) — every public builder setter per parameter value (requirement checked = RFC 6241 §8 reference, against the server's set, Ok iff the check is true, nothing else gating), Operation::new, Url::try_new, Session::rpc; THIR tables for operation requirements and the capability URI parser / inverse; who-may-construct on MIR",
        "text": "Exact decision of the structural statement in both directions (never more, never less than advertised) by equality with the RFC 6241 §8 reference: 20 Operation impls, 19 gate-table rows, Requirements::check semantics, every gate checks the server's capability set and returns Ok only on the true edge, every gated builder parameter is stored only under its gate's success, operation structs/Url are built only by their builders, nothing is sent unless O::new succeeded, the capability URI parser equals the IANA URN table and its inverse. Not decided: iri-string's URI splitting (trusted).",
        "note": "Reference tables come from RFC 6241 §8/§10.4 (external to the code). Junos operations are assumed to need only the Junos XML-management capability.",
        "design_ref": "DESIGN.md §3 C09",
    },
    "C15": {
        "technique": "static analysis: abstract interpretation of Policies::evaluate (no early exit in either form), Candidate::evaluate, compare per failed-evaluation case and with_connection (evaluator survives a failed evaluation); explicit-panic site inventory over the workspace's resolver bodies and over the optimized MIR of rpsl's generic Evaluate impls read from dependency metadata",
        "text": "Decides the isolation structure (no early exit, per-candidate .ok()) and lists every explicit not-implemented panic reachable from the per-candidate evaluation: none in the workspace (PeerAS fixed), two todo!() in rpsl-0.1.1's Literal::evaluate recorded as known findings (reproduced with the real binary). Not decided: which expressions an IRR can answer; implicit panics in dependencies.",
        "note": "Assumes every Resolver/Evaluate impl is reachable by some valid expression; rpsl/irrc pinned by Cargo.lock (keys carry the version).",
        "design_ref": "DESIGN.md §3 C15",
    },
    "C17": {
        "technique": "static analysis: abstract interpretation of with_connection per outcome of take() and of the resolver closure (connection restored before every return); who-may-access scan of the conn field; field-write / interior-mutability / statics scan for state carried across evaluations",
        "text": "Decides ONE clause: after a successful take, every return of with_connection passes through self.conn = Some(<the taken connection>), and the connection is touched only there — so a failed evaluation leaves the evaluator usable. The response-attribution clause (responses never attributed to the wrong query, partly consumed pipelines drained) is irrc-0.1.0's run-time logic and is NOT applicable to this technique. Second round: the evaluator carries nothing but the connection from one evaluation to the next (no other field is written, mutably borrowed or moved out after construction; no interior mutability; no statics in the library).",
        "note": "Trusts irrc-0.1.0's Pipeline drain-on-drop. Unwinding paths are C15's subject.",
        "design_ref": "DESIGN.md §3 C17",
    },
    "C19": {
        "technique": "static analysis: path exploration of Loop::start, one loop iteration per select! outcome (vlib/absint.py): timer operation and its argument, assignment to the loop-carried delay, loop exit — per outcome; registrations; Frequency::from and main's dispatch through whatever helper",
        "text": "Decides the three update equations of `backoff` (initial MIN_BACKOFF=60s; Ok: reset(), backoff=MIN_BACKOFF; Err: reset_after(pre-update backoff), backoff=min(period, backoff*k>=2)), that every path from job completion to the next tick resets the timer, that SIGINT/SIGTERM arms break Ok(()), SIGHUP arm calls reset_immediately(), registrations are checked, and 0 => one-shot. The numeric bound follows on paper from the verified equations. Not decided: signal arrival times, tokio Interval semantics (trusted).",
        "note": "Trusts tokio::time::Interval and tokio::select! documentation.",
        "design_ref": "DESIGN.md §3 C19",
    },
})

CHECKS.update({
    "C01": {
        "technique": "static analysis: abstract interpretation of the function's THIR over the rule's abstract input cases (vlib/absint.py: local fns/closures inlined, Option/Result combinators and `?` interpreted, undecided branches fork the path) for the compare decision table / wiring and for the payload writer (emitted XML tree per abstract case, vlib/xmlemit.py), checked against the element requirements and the value path of the agent's own readers",
        "text": "Decides structural necessary conditions of convergence: the complete compare decision table with old/new wiring; for all 12 abstract (old,new,family) cases the emitted term tree is readable by the agent's own Term/TermFrom/RouteFilter readers, deletes a term exactly when the family becomes empty, deletes old\\new and adds new\\old (HashSet::difference), and the envelope order. NOT decided: set contents and prefix arithmetic, Junos merge behaviour, equality after read-back for concrete values, behaviour over run sequences (the paper argument (old\\(old\\new)) U (new\\old) = new is not machine-checked). Second round: also the value path of the installed-state reader (every route-filter converted and pushed, bound order, writer/reader agreement on the length-range format, field sources).",
        "note": "Junos normalisation prefix-length-range <-> choice-ident/choice-value and merge semantics are assumptions.",
        "design_ref": "DESIGN.md §3 C01",
    },
    "C02": {
        "technique": "static analysis: the same abstract interpretation of compare and of the payload writer; structural predicates on the emitted tree per abstract case; who-may-send and origin of the opened database; sibling agreement of the two policy-name readers",
        "text": "Decides, for each update on its own and every abstract case: every accept sits in a term with from/family of the same family and only when the new set is non-empty; non-deleted route-filters come only from the evaluated set, deleted ones from old\\new; an emptied family is removed as a whole term; Update always ends in then/reject; element names are literals from the policy-statement vocabulary; only load_config on the configured ephemeral instance sends it. NOT decided: that the evaluated set is right (C11), Junos merge semantics, accept-set of a concrete policy. Second round: the `old` handed to the writer is the installed set of the same policy and family on every path (else stale ranges are never deleted), and the candidate and installed readers normalise policy names by the same chain.",
        "note": "Same assumptions as C01.",
        "design_ref": "DESIGN.md §3 C02",
    },
})

CHECKS.update({
    "C12": {
        "technique": "static analysis: abstract interpretation of the function's THIR over the rule's abstract input cases (vlib/absint.py: local fns/closures inlined, Option/Result combinators and `?` interpreted, undecided branches fork the path) — highest_common_version, SessionId::new/from_str, the hello reader's paths (duplicates / unknown / missing), the context Session::new builds; advertised-vs-implemented check; coroutine MIR for the joined hello exchange (send and receive driven by one suspension point)",
        "text": "Decides: every advertised base version other than 1.0 requires version-dependent framing code (none exists, so only :base:1.0 may be advertised — fixed in b7bc1f8); highest common version = greatest element of the intersection (derived Ord, ascending variants); SessionId is NonZeroU32 built only by new/from_str, duplicates/missing hello children are errors; the Context reports the hello's session-id and capability sets; Ok(Session) only through the success edges of hello exchange and negotiation. NOT decided: 'if and only if well-formed' in full (C13/C14 reader analysis), exchange orderings. Second round: the future sending the client hello and the future receiving the server hello are polled by one and the same suspension point (neither order of the simultaneous exchange can block the other); a repeated or unknown hello element reaches the error arm (no skipping arm).",
        "note": "RFC 6242 §4.1 framing rule is the external reference; BTreeSet::last semantics trusted.",
        "design_ref": "DESIGN.md §3 C12",
    },
    "C20": {
        "technique": "static analysis: enumeration of formatting sinks from MIR; Debug-closure over the type graph (local items + derived/hand-written flags of dependency Debug impls read from crate metadata); audit of the redacting impl's MIR; forward taint of the raw secret (into private helpers of Ssh::connect) and of PEM file bytes (through parser results and closures)",
        "text": "Decides the type-and-dataflow part: no formatting sink's type closure reaches a secret-carrying type except through an audited hand-written redacting Debug; Password's Debug never reads its field and Password has no Display/Deref/AsRef; the raw password string flows only to authenticate_password; no private-key accessor is called; PEM bytes are never formatted. NOT decided: what russh/rustls/tokio log internally with the secret they were given; encodings are covered only in the sense that no sink receives the secret in any form.",
        "note": "rustls-pki-types 1.7.0 and rustls 0.22.4 Debug impls reviewed by hand; the check fails if Cargo.lock moves off those versions.",
        "design_ref": "DESIGN.md §3 C20",
    },
})

CHECKS.update({
    "C10": {
        "technique": "static analysis: enumeration and classification of every write reaching quick_xml::Writer (escaping vs raw sinks) over MIR, origin slices for element/attribute names (a private helper's name parameter is checked at its call sites) and text constructors, audited raw-site table, dominance for delimiter placement, abstract result of to_xml for UTF-8 validation",
        "text": "Decides the escaping discipline on all paths of every writer body: names are static; every text-valued field reaches an escaping sink (BytesText::new / (&str,&str) attribute) except the three documented verbatim-XML sites and the numeric rollback attribute; no from_escaped / write_event / byte-pair attributes; delimiter appended once after the document and UTF-8 validated. NOT decided: well-formedness of caller-supplied XML fragments, a fragment containing the delimiter (inherent to RFC 6242 §4.3).",
        "note": "Trusts quick-xml 0.31 escaping of < > & ' \" in BytesText::new and Attribute::from((&str,&str)).",
        "design_ref": "DESIGN.md §3 C10",
    },
    "C13": {
        "technique": "static analysis: sibling-consistency lint over all reader loops (THIR arm tables: namespace/local-name matching in either operand order, comment arms, unconditional declaration arm, Start/Empty symmetry or expand_empty_elements(true) on every reader construction) + MIR taint from read_text to token sinks where only str::trim and verified wrappers of it sanitise",
        "text": "Decides, per rewrite named by the property, the syntactic obligation on every reader loop: namespace-resolved local-name matching (prefix independence), comment skipping, declaration skipping at document level, `<x/>` = `<x></x>` (either every NsReader the crates create expands empty elements and every recognised element has a Start arm, or Start/Empty symmetry per element with a justification table for spellings that are rejected either way or lie outside the grammars), trimming of token-valued text. The 14 empty-element-form asymmetries found in the design round were repaired (1be19b9), as were the comment/declaration/whitespace defects. NOT decided: attribute order/quoting and inter-element whitespace (quick-xml tokenizer, assumed).",
        "note": "Trusts quick-xml 0.31 event delivery and read_text semantics (raw slice).",
        "design_ref": "DESIGN.md §3 C13",
    },
    "C14": {
        "technique": "static analysis: panic-capable site inventory over the input-reachable workspace call graph against an audited table with re-verified discharges (framing helpers covered by what their body does); cycle-without-consumption check on reader loops; catch-all arm and UTF-8 validation checks; taint from the body-skipping call to `?` in the first parse phase",
        "text": "Reduces totality over inputs to two source-level facts and decides them: every panic-capable site reachable from the 70+ input entry points is accounted for (by type, by a C06 invariant, constant arithmetic, or trusted macro internals), and every reader loop consumes input on every path round the loop with a catch-all error arm; UTF-8 is validated before parsing. NOT decided: panics/loops inside quick-xml, iri-string, generic-ip; memory exhaustion; EOF hang (C07). Second round: the first parse phase of a reply (run by whichever caller holds the transport) fails on the envelope only — a malformed body is reported to the request that owns the reply, not to a bystander.",
        "note": "Call graph over-approximates trait dispatch inside the workspace; dependencies are opaque.",
        "design_ref": "DESIGN.md §3 C14",
    },
    "C16": {
        "technique": "static analysis: path exploration of Maybe<Candidate>::read_xml (vlib/absint.py): what each path of the attribute scan and of the element loops assumed and did — order independence, selection conditions, origin chains of expression and name; constant tables",
        "text": "Decides: the attribute scan's result does not depend on attribute order or duplication; a statement is selected only with a parseable annotation, default reject action, a name, and no other content; expression and name are the configuration's (unescaped); candidates come from the running datastore with the policy-statement subtree filter, installed ones from the ephemeral candidate datastore; duplicate names are an error. NOT decided: MpFilterExpr's grammar, Junos' rendering of annotations.",
        "note": "Trusts quick-xml attribute unescaping and the rpsl parser.",
        "design_ref": "DESIGN.md §3 C16",
    },
})

CHECKS.update({
    "C11": {
        "technique": "static analysis: THIR table / call-chain rules over the library's resolvers — sibling agreement of the per-family route queries, adaptor whitelist between Pipeline::responses() and collect_results, operand-origin of every irrc::Query built, recursive-variant check, print-chain of the CLI",
        "text": "Decides ONLY the structural clauses the property's own rationale names ('losing a family, a member or a response'): wherever routes are requested for an AS they are requested for both address families of that same AS; every response stream reaches collect_results through `map` alone and is passed on unchanged; each resolver queries the very name it was asked to resolve (and, per member, the member the server returned); set membership uses the recursive query variants; the CLI prints every range of the result. These are necessary conditions — each can be broken by a one-token edit that compiles and passes the suite. NOT decided, and not decidable by this technique: the equality of the evaluated set with the RPSL denotation for any concrete IRR database (AST evaluation and set algebra in rpsl, pipelining and response parsing in irrc, prefix-set arithmetic in generic-ip — run-time values in external crates).",
        "note": "irrc 0.1.0's Query enum was read by hand (no combined-family origin query); the check fails closed if Cargo.lock moves irrc. The set-equality clause of C11 is not applicable to static analysis and is not claimed.",
        "design_ref": "DESIGN.md §3 C11",
    },
})

NOT_APPLICABLE = {
}

PENDING = "rule module not yet implemented in this revision of /verif (design in DESIGN.md §3); no claim is made until the check exists"


import sys
sys.path.insert(0, VERIF)
from rules.notes import THIRD_ROUND  # noqa: E402


def main():
    props = [json.loads(l)["id"] for l in open(os.path.join(VERIF, "properties.jsonl"))]
    checks = []
    for pid in props:
        if pid in CHECKS:
            c = CHECKS[pid]
            checks.append({
                "property_id": pid,
                "quick_cmd": "./vcheck %s quick" % pid,
                "thorough_cmd": "./vcheck %s thorough" % pid,
                "evidence_file": "evidence/%s.json" % pid,
                "replay_cmd_template": "./vcheck %s quick --replay {path}" % pid,
                "engine": "factgen+rules",
                "level_claimed": {"category": "other", "text": c["text"] + ((" " + THIRD_ROUND[pid]) if pid in THIRD_ROUND else ""), "design_ref": c["design_ref"]},
                "level_note": c["note"],
                "technique": c["technique"],
            })
    na = []
    for pid in props:
        if pid not in CHECKS:
            na.append({"property_id": pid, "reason": NOT_APPLICABLE.get(pid, PENDING)})
    fixes = []
    kf = os.path.join(VERIF, "known_findings.json")
    if os.path.exists(kf):
        fixes = [f["commit"] for f in json.load(open(kf)).get("fixed", []) if f.get("commit")]
    m = {
        "version": 1,
        "setup_cmd": "./setup.sh",
        "hooks": {
            "guard": "bgpfu_verif",
            "enable": "none needed: the checks analyse the unmodified source through a rustc_private driver (RUSTC_WORKSPACE_WRAPPER under cargo +nightly check); no hook code exists in /repo",
            "baseline_off_cmd": "cd /repo && cargo test --workspace --no-fail-fast --offline",
            "source_commits": sorted(set(fixes)),
            "add_only": True,
        },
        "engines": [
            {"name": "factgen+rules", "path": "factgen/ (rustc_private driver) + vlib/ + rules/ (Python 3 stdlib)",
             "serves_properties": sorted(CHECKS),
             "kind_free_text": "static analysis: custom compiler driver dumping borrowck-time MIR, THIR and item facts of /repo's current tree; per-property rules (dominance, dataflow, tables, who-may-call, liveness) over those facts"},
        ],
        "checks": checks,
        "not_applicable": na,
        "notes": "Exit 2 (no VIOLATION line) means 'cannot decide' (build failure under nightly, anchor lost). Known findings are listed in known_findings.json and printed as KNOWN-FINDING lines. "
                 "Every property is claimed at most IN PART (structural clauses; see each level_claimed.text). Clauses that are NOT APPLICABLE to static analysis and are not claimed by any check: "
                 "C11 equality of the evaluated set with the RPSL denotation over an IRR database (run-time values in rpsl/irrc/generic-ip); "
                 "C05 wake-up order, fairness and progress under all interleavings; C07 'within bounded time'; C17 response-to-query attribution and pipeline draining (irrc); "
                 "C01/C02 set contents, Junos merge semantics and behaviour over run sequences; C06 concrete chunkings below the TLS/SSH record layer; C19 the timeline itself (signal arrival vs timer); "
                 "C14/C15 panics and loops inside dependencies other than the explicit markers listed; C20 what russh/rustls/tokio log internally.",
    }
    with open(os.path.join(VERIF, "MANIFEST.json"), "w") as f:
        json.dump(m, f, indent=1)
    print("MANIFEST.json: %d checks, %d not_applicable" % (len(checks), len(na)))


if __name__ == "__main__":
    main()
