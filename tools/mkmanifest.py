#!/usr/bin/env python3
"""Regenerate MANIFEST.json from the table below (single source of truth)."""
import json
import os

VERIF = os.path.dirname(os.path.dirname(os.path.abspath(__file__)))

CHECKS = {
    "C04": {
        "technique": "static analysis: success-edge dominance (`?` Continue edge) over borrowck-time MIR; loop-exit dominance; who-may-call; typestate via item signatures; THIR match table",
        "text": "Exact decision of the structural statement: on every CFG path of Updater::run, commit_config (its only call site in the workspace) is reachable only through the success edges of open_db, both fetches, try_join!, and load_config; load_config returns Ok only after the loop over every pushed reply future is exhausted with each reply `?`-checked; every client method returns success only through both awaits' success edges; Client<_,Open> is constructed only in open_db. This covers all fault positions because it quantifies over CFG paths rather than sampled faults. Not decided: server behaviour, try_join!/`?` semantics (trusted).",
        "note": "Trusts rustc's MIR construction (nightly 1.97) as a faithful rendering of the source semantics, tokio::try_join! documentation, and C08 for what a positive acknowledgement is.",
        "design_ref": "DESIGN.md §3 C04",
    },
}

NOT_APPLICABLE = {
    "C11": "Equality between a computed prefix-range set and the RPSL denotation over arbitrary IRR data: run-time values in three external crates (rpsl, irrc, generic-ip); no structural necessary condition in this repository's source that is not a frozen copy of today's query plan.",
}

PENDING = "rule module not yet implemented in this revision of /verif (design in DESIGN.md §3); no claim is made until the check exists"


def main():
    props = [json.loads(l)["id"] for l in open(os.path.join(VERIF, "properties.jsonl"))]
    checks = []
    for pid in props:
        if pid in CHECKS:
            c = CHECKS[pid]
            checks.append({
                "property_id": pid,
                "quick_cmd": "./vcheck %s quick" % pid,
                "thorough_cmd": "./vcheck %s thorough" % pid,
                "evidence_file": "evidence/%s.json" % pid,
                "replay_cmd_template": "./vcheck %s quick --replay {path}" % pid,
                "engine": "factgen+rules",
                "level_claimed": {"category": "other", "text": c["text"], "design_ref": c["design_ref"]},
                "level_note": c["note"],
                "technique": c["technique"],
            })
    na = []
    for pid in props:
        if pid not in CHECKS:
            na.append({"property_id": pid, "reason": NOT_APPLICABLE.get(pid, PENDING)})
    fixes = []
    kf = os.path.join(VERIF, "known_findings.json")
    if os.path.exists(kf):
        fixes = [f["commit"] for f in json.load(open(kf)).get("fixed", []) if f.get("commit")]
    m = {
        "version": 1,
        "setup_cmd": "./setup.sh",
        "hooks": {
            "guard": "bgpfu_verif",
            "enable": "none needed: the checks analyse the unmodified source through a rustc_private driver (RUSTC_WORKSPACE_WRAPPER under cargo +nightly check); no hook code exists in /repo",
            "baseline_off_cmd": "cd /repo && cargo test --workspace --no-fail-fast --offline",
            "source_commits": sorted(set(fixes)),
            "add_only": True,
        },
        "engines": [
            {"name": "factgen+rules", "path": "factgen/ (rustc_private driver) + vlib/ + rules/ (Python 3 stdlib)",
             "serves_properties": sorted(CHECKS),
             "kind_free_text": "static analysis: custom compiler driver dumping borrowck-time MIR, THIR and item facts of /repo's current tree; per-property rules (dominance, dataflow, tables, who-may-call, liveness) over those facts"},
        ],
        "checks": checks,
        "not_applicable": na,
        "notes": "Exit 2 (no VIOLATION line) means 'cannot decide' (build failure under nightly, anchor lost). Known findings are listed in known_findings.json and printed as KNOWN-FINDING lines.",
    }
    with open(os.path.join(VERIF, "MANIFEST.json"), "w") as f:
        json.dump(m, f, indent=1)
    print("MANIFEST.json: %d checks, %d not_applicable" % (len(checks), len(na)))


if __name__ == "__main__":
    main()
