#!/usr/bin/env python3
"""mutest.py <patch> <PROP> [--expect KEYSUBSTR] — apply a patch to a scratch copy of /repo and run a check on it.

The scratch copy lives under /verif/.work/scratch/<pid> and is removed afterwards (with its facts).
Exit 0 if the check reported a VIOLATION (mutant detected), 1 otherwise.
"""
import os
import shutil
import subprocess
import sys

VERIF = os.path.dirname(os.path.dirname(os.path.abspath(__file__)))
REPO = "/repo"


def make_scratch(patch, tag=None):
    dst = os.path.join(os.environ.get("VERIF_SCRATCH", "/tmp/verif-scratch"), tag or str(os.getpid()))
    shutil.rmtree(dst, ignore_errors=True)
    os.makedirs(os.path.dirname(dst), exist_ok=True)
    shutil.copytree(REPO, dst, ignore=shutil.ignore_patterns("target", ".git"))
    subprocess.run(["git", "init", "-q"], cwd=dst, check=True)
    r = subprocess.run(["git", "apply", "--whitespace=nowarn", os.path.abspath(patch)], cwd=dst, capture_output=True, text=True)
    if r.returncode != 0:
        shutil.rmtree(dst, ignore_errors=True)
        raise SystemExit("patch does not apply: %s\n%s" % (patch, r.stderr))
    return dst


def run_check(prop, repo, tier="quick"):
    env = dict(os.environ, VERIF_REPO=repo, VERIF_EVIDENCE_DIR=repo.rstrip("/") + ".evidence")
    r = subprocess.run([os.path.join(VERIF, "vcheck"), prop, tier], cwd=VERIF, env=env, capture_output=True, text=True)
    return r.returncode, r.stdout + r.stderr


def drop_facts(repo):
    sys.path.insert(0, VERIF)
    from vlib import gen
    th = gen.tree_hash(repo)
    shutil.rmtree(os.path.join(VERIF, ".work", "facts", th), ignore_errors=True)


def main():
    patch, prop = sys.argv[1], sys.argv[2]
    expect = None
    if "--expect" in sys.argv:
        expect = sys.argv[sys.argv.index("--expect") + 1]
    dst = make_scratch(patch)
    try:
        rc, out = run_check(prop, dst)
    finally:
        drop_facts(dst)
        shutil.rmtree(dst, ignore_errors=True)
        shutil.rmtree(dst.rstrip("/") + ".evidence", ignore_errors=True)
    print(out)
    detected = rc == 1 and "VIOLATION property=%s" % prop in out and (expect is None or expect in out)
    print("MUTANT %s: %s (exit %d)" % (os.path.basename(patch), "DETECTED" if detected else "MISSED", rc))
    return 0 if detected else 1


if __name__ == "__main__":
    sys.exit(main())
