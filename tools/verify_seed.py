#!/usr/bin/env python3
"""verify_seed.py <seed_out_dir> [--keep]  — confirm an independently produced breaking change and run our checks on it.

Steps (all in a scratch worktree of /repo under /tmp, removed afterwards):
  1. patch.diff applies; the existing suite passes with it;
  2. patch.diff + demo.diff: the demonstration FAILS;
  3. demo.diff alone: the demonstration PASSES;
  4. ./vcheck <property> quick on the tree with patch.diff only (VERIF_REPO): detected / missed.
If 1-3 hold the change is copied to /verif/seeded/<id>/ with meta.json recording what was run.
"""
import json
import os
import shutil
import subprocess
import sys

VERIF = os.path.dirname(os.path.dirname(os.path.abspath(__file__)))
TARGET = "/tmp/vs_target"


def sh(cmd, cwd, env=None, timeout=3600):
    e = dict(os.environ, CARGO_NET_OFFLINE="true", CARGO_TARGET_DIR=TARGET, RUST_BACKTRACE="0")
    if env:
        e.update(env)
    r = subprocess.run(cmd, cwd=cwd, env=e, shell=True, capture_output=True, text=True, timeout=timeout)
    return r.returncode, r.stdout + r.stderr


def suite_ok(out):
    import re
    fails = re.findall(r"test result: FAILED", out)
    passed = sum(int(x) for x in re.findall(r"test result: ok\. (\d+) passed", out))
    return (not fails) and passed >= 57 and "error: could not compile" not in out and "error[" not in out, passed


def main():
    d = os.path.abspath(sys.argv[1])
    sid = os.path.basename(d.rstrip("/"))
    meta = json.load(open(os.path.join(d, "meta.json")))
    prop = meta["property"]
    wt = "/tmp/vs_" + sid
    subprocess.run(["git", "-C", "/repo", "worktree", "remove", "--force", wt], capture_output=True)
    shutil.rmtree(wt, ignore_errors=True)
    # the commit the change was written against (a file `base` in the delivery; default: the current HEAD)
    base = open(os.path.join(d, "base")).read().strip() if os.path.exists(os.path.join(d, "base")) else "HEAD"
    subprocess.check_call(["git", "-C", "/repo", "worktree", "add", "--detach", wt, base], stdout=subprocess.DEVNULL, stderr=subprocess.DEVNULL)
    res = {"id": sid, "property": prop, "base": subprocess.check_output(["git", "-C", wt, "rev-parse", "--short", "HEAD"], text=True).strip()}
    try:
        rc, out = sh("git apply --whitespace=nowarn %s/patch.diff" % d, wt)
        res["patch_applies"] = rc == 0
        if rc != 0:
            res["error"] = out[-500:]
            return finish(res, d, wt, meta)
        rc, out = sh("cargo test --workspace --no-fail-fast --offline 2>&1", wt)
        ok, passed = suite_ok(out)
        res["suite_passes_with_patch"] = ok
        res["suite_passed_count"] = passed
        rc2, out2 = sh("cargo build -p bgpfu-netconf --all-features --offline 2>&1 | tail -3", wt)
        res["all_features_build"] = "error" not in out2
        # our check on the patched tree (patch only)
        env = {"VERIF_REPO": wt, "VERIF_EVIDENCE_DIR": wt + ".evidence"}
        e = dict(os.environ, **env)
        r = subprocess.run([os.path.join(VERIF, "vcheck"), prop, "quick"], cwd=VERIF, env=e, capture_output=True, text=True)
        res["check_exit"] = r.returncode
        res["check_detected"] = r.returncode == 1 and ("VIOLATION property=%s" % prop) in r.stdout
        res["check_violations"] = [l.strip()[:300] for l in r.stdout.splitlines() if l.strip().startswith("violation:")][:8]
        if r.returncode == 2:
            res["check_output"] = (r.stdout + r.stderr)[-600:]
        # other checks too (a change may break a neighbouring property)
        others = {}
        for p in json.load(open(os.path.join(VERIF, "MANIFEST.json")))["checks"]:
            pid = p["property_id"]
            if pid == prop:
                continue
            r2 = subprocess.run([os.path.join(VERIF, "vcheck"), pid, "quick"], cwd=VERIF, env=e, capture_output=True, text=True)
            if r2.returncode != 0:
                others[pid] = [r2.returncode] + [l.strip()[:200] for l in r2.stdout.splitlines() if l.strip().startswith(("violation:", "ANCHOR"))][:3]
        res["other_checks_firing"] = others
        sys.path.insert(0, VERIF)
        from vlib import gen
        shutil.rmtree(os.path.join(VERIF, ".work", "facts", gen.tree_hash(wt)), ignore_errors=True)
        shutil.rmtree(wt + ".evidence", ignore_errors=True)
        # demo on top of the patch: must fail
        rc, out = sh("git apply --whitespace=nowarn %s/demo.diff" % d, wt)
        res["demo_applies_on_patch"] = rc == 0
        if rc != 0:
            res["error"] = out[-500:]
            return finish(res, d, wt, meta)
        rc, out = sh(meta["demo_cmd"] + " 2>&1", wt)
        res["demo_fails_with_patch"] = rc != 0 and ("FAILED" in out or "panicked" in out or "failed" in out)
        res["demo_with_patch_tail"] = out[-400:]
        # demo alone: must pass
        sh("git checkout -- . && git clean -fdq", wt)
        rc, out = sh("git apply --whitespace=nowarn %s/demo.diff" % d, wt)
        res["demo_applies_alone"] = rc == 0
        rc, out = sh(meta["demo_cmd"] + " 2>&1", wt)
        res["demo_passes_without_patch"] = rc == 0 and "test result: ok" in out and " 0 passed" not in out.split("test result: ok")[1][:40] if "test result: ok" in out else False
        res["demo_without_patch_tail"] = out[-300:]
    finally:
        pass
    return finish(res, d, wt, meta)


def finish(res, d, wt, meta):
    if "--keep" not in sys.argv:
        subprocess.run(["git", "-C", "/repo", "worktree", "remove", "--force", wt], capture_output=True)
        shutil.rmtree(wt, ignore_errors=True)
    confirmed = all(res.get(k) for k in ("patch_applies", "suite_passes_with_patch", "demo_applies_on_patch", "demo_fails_with_patch", "demo_applies_alone", "demo_passes_without_patch"))
    res["confirmed"] = confirmed
    print(json.dumps(res, indent=1))
    if confirmed:
        dst = os.path.join(VERIF, "seeded", res["id"])
        os.makedirs(dst, exist_ok=True)
        shutil.copy(os.path.join(d, "patch.diff"), dst)
        shutil.copy(os.path.join(d, "demo.diff"), dst)
        m = dict(meta)
        m["breaks_property"] = meta["property"]
        m["origin"] = "independent sub-agent given only the property text and a scratch worktree of /repo"
        m["confirmed_by"] = {
            "existing_suite_with_patch": "cargo test --workspace --no-fail-fast --offline => %d passed, 0 failed" % res.get("suite_passed_count", 0),
            "demo_with_patch": "FAILS (%s)" % meta["demo_cmd"],
            "demo_without_patch": "PASSES",
            "repo_head": res.get("base"),
        }
        m["our_check"] = {"detected": res.get("check_detected"), "exit": res.get("check_exit"), "violations": res.get("check_violations"),
                          "other_checks_firing": res.get("other_checks_firing")}
        json.dump(m, open(os.path.join(dst, "meta.json"), "w"), indent=1)
    return 0 if confirmed else 1


if __name__ == "__main__":
    sys.exit(main())
