//! Compile-fail witnesses for C09/R5 (type-level remainder): from outside the `netconf` crate an operation request
//! or a `Url` cannot be built except through the capability-checking builders.  Each `compile_fail` test has a compiling
//! twin that differs only by the offending construct, so a witness cannot pass because of an unrelated error.
//!
//! Run with `cargo +nightly test --doc --offline` (the error codes are only checked on nightly).

/// Twin: the public path — `Session::rpc` with the builder — type-checks.
/// ```
/// use netconf::{message::rpc::operation::{Builder, Commit}, transport::Transport, Session};
/// async fn f<T: Transport>(s: &mut Session<T>) {
///     let _ = s.rpc::<Commit, _>(|b| b.finish()).await;
/// }
/// ```
///
/// An operation struct cannot be written as a literal (private fields), so `REQUIRED_CAPABILITIES` cannot be bypassed.
/// ```compile_fail,E0451
/// use netconf::{message::rpc::operation::{Builder, Commit}, transport::Transport, Session};
/// async fn f<T: Transport>(s: &mut Session<T>) {
///     let _ = s.rpc::<Commit, _>(|_b| Ok(Commit { confirmed: true, confirm_timeout: todo!(), persist: None, persist_id: None })).await;
/// }
/// ```
pub struct OperationLiteral;

/// Twin: a datastore is handed to a builder setter (which gates it).
/// ```
/// use netconf::{message::rpc::operation::{Builder, Datastore, GetConfig, Opaque}, transport::Transport, Session};
/// async fn f<T: Transport>(s: &mut Session<T>) {
///     let _ = s.rpc::<GetConfig<Opaque>, _>(|b| b.source(Datastore::Candidate)?.finish()).await;
/// }
/// ```
///
/// The gate functions themselves are private: a caller cannot fabricate a "checked" value.
/// ```compile_fail,E0624
/// use netconf::{message::rpc::operation::Datastore, Session, transport::Transport};
/// fn f<T: Transport>(s: &Session<T>) {
///     let _ = Datastore::Running.try_as_target(s.context());
/// }
/// ```
pub struct GateIsPrivate;

/// Twin: a URL is given to the builder as a string and checked there.
/// ```
/// use netconf::{message::rpc::operation::{Builder, DeleteConfig}, transport::Transport, Session};
/// async fn f<T: Transport>(s: &mut Session<T>) {
///     let _ = s.rpc::<DeleteConfig, _>(|b| b.url("ftp://example.net/cfg")?.finish()).await;
/// }
/// ```
///
/// `Url` cannot be constructed outside the crate (private field, private constructor).
/// ```compile_fail,E0451
/// use netconf::message::rpc::operation::Url;
/// fn f() -> Url {
///     Url { inner: todo!() }
/// }
/// ```
/// ```compile_fail,E0624
/// use netconf::{message::rpc::operation::Url, Session, transport::Transport};
/// fn f<T: Transport>(s: &Session<T>) {
///     let _ = Url::try_new("ftp://example.net/cfg", s.context());
/// }
/// ```
pub struct UrlIsOpaque;

/// Twin: a session is obtained from the public constructors only.
/// ```
/// use netconf::Session;
/// async fn f() {
///     let _ = Session::tls(("localhost", 6513), "localhost", todo!(), todo!(), todo!()).await;
/// }
/// ```
///
/// `Session::new` (which would accept an arbitrary transport and hello) is private, and the context cannot be forged.
/// ```compile_fail,E0624
/// use netconf::{transport::Transport, Session};
/// async fn f<T: Transport>(t: T) {
///     let _ = Session::new(t).await;
/// }
/// ```
pub struct SessionCtor;
